"""C08 — MySQL/Postgres statements carry every clause given, in grammar order."""
import json
import re
import vlib
from vlib import hexs, unhexs
import qcommon
import gen_sql
import regen
import sexp
import sqlparse

B = ["my", "pg"]

# grammar order per statement kind (mirror of coq/Spec/ClauseOrder.v); WINDOW follows HAVING
SELECT_ORDER = ["WITH", "SELECT", "FROM", "JOIN", "WHERE", "GROUP", "HAVING", "WINDOW", "COMPOUND", "ORDER", "LIMIT", "OFFSET", "LOCK"]
INSERT_ORDER = ["WITH", "INSERT", "SOURCE", "UPSERT", "RETURNING"]
UPDATE_ORDER = {"my": ["WITH", "UPDATE", "JOIN", "SET", "WHERE", "ORDER", "LIMIT"],
                "pg": ["WITH", "UPDATE", "SET", "FROM", "WHERE", "RETURNING", "ORDER", "LIMIT"]}
DELETE_ORDER = {"my": ["WITH", "DELETE", "WHERE", "ORDER", "LIMIT"], "pg": ["WITH", "DELETE", "WHERE", "RETURNING", "ORDER", "LIMIT"]}


def expected_kinds(b, prog):
    """which clauses the builder program gives, in the dialect's grammar order"""
    kind = prog[0]
    cl = [c[0] for c in prog[1:] if isinstance(c, list)]
    has = lambda *names: any(n in cl for n in names)
    if kind == "select":
        present = {"WITH": has("with"), "SELECT": True, "FROM": has("from"), "JOIN": has("join", "joinlateral") ,
                   "WHERE": has("andwhere", "condwhere", "andorwhere"), "GROUP": has("groupby"), "HAVING": has("andhaving", "condhaving"),
                   "WINDOW": has("window"), "COMPOUND": has("union"), "ORDER": has("orderby"), "LIMIT": has("limit"),
                   "OFFSET": has("offset"), "LOCK": has("lock")}
        return [k for k in SELECT_ORDER if present[k]]
    if kind == "insert":
        present = {"WITH": has("with"), "INSERT": True, "SOURCE": False, "UPSERT": has("onconflict"),
                   "RETURNING": has("returning") and b != "my"}
        return [k for k in INSERT_ORDER if present[k]]
    if kind == "update":
        frm = has("from")
        present = {"WITH": has("with"), "UPDATE": True, "JOIN": frm and b == "my", "SET": True, "FROM": frm and b != "my",
                   "WHERE": has("andwhere", "condwhere", "andorwhere") and not (b == "my" and frm), "RETURNING": has("returning") and b != "my",
                   "ORDER": has("orderby"), "LIMIT": has("limit")}
        return [k for k in UPDATE_ORDER[b] if present[k]]
    if kind == "delete":
        present = {"WITH": has("with"), "DELETE": True, "WHERE": has("andwhere", "condwhere", "andorwhere"),
                   "RETURNING": has("returning") and b != "my", "ORDER": has("orderby"), "LIMIT": has("limit")}
        return [k for k in DELETE_ORDER[b] if present[k]]
    return None


def rendered_kinds(kind, toks):
    """clause heads at parenthesis depth 0 of the rendered statement"""
    out, depth, i, n = [], 0, 0, len(toks)
    seen_source = False
    head_word = {"select": ("SELECT",), "insert": ("INSERT", "REPLACE"), "update": ("UPDATE",), "delete": ("DELETE",)}[kind]
    in_with = False
    while i < n:
        t = toks[i]
        if in_with:
            # inside the WITH clause (CTE names, SEARCH .. SET .., CYCLE .. SET .. USING ..): wait for the statement head
            if t == ("C", "("):
                depth += 1
            elif t == ("C", ")"):
                depth -= 1
            elif depth == 0 and t[0] == "W" and t[1] in head_word:
                in_with = False
                continue
            i += 1
            continue
        if depth == 0 and t == ("W", "WITH") and not out:
            out.append("WITH")
            in_with = True
            i += 1
            continue
        if t == ("C", "("):
            depth += 1
        elif t == ("C", ")"):
            depth -= 1
        elif depth == 0 and t[0] == "W":
            w = t[1]
            nxt = toks[i + 1][1] if i + 1 < n and toks[i + 1][0] == "W" else None
            if kind == "select" and w == "FOR" and nxt in ("JOIN", "ORDER", "GROUP"):
                i += 2 if nxt == "JOIN" else 3     # index hint scope: USE INDEX FOR ORDER BY (..)
                continue
            if kind == "select":
                if w in ("SELECT", "FROM", "WHERE", "HAVING", "WINDOW", "LIMIT", "OFFSET"):
                    out.append(w)
                elif w in ("GROUP", "ORDER") and nxt == "BY":
                    out.append(w)
                elif w in ("UNION", "INTERSECT", "EXCEPT"):
                    if not out or out[-1] != "COMPOUND":
                        out.append("COMPOUND")
                elif w == "JOIN":
                    if not out or out[-1] != "JOIN":
                        out.append("JOIN")
                elif w == "FOR" and nxt in ("UPDATE", "SHARE", "NO", "KEY"):
                    out.append("LOCK")
            elif kind == "insert":
                if w in ("INSERT", "REPLACE") and not out or (w in ("INSERT", "REPLACE") and out == ["WITH"]):
                    out.append("INSERT")
                elif w in ("VALUES", "SELECT", "DEFAULT") and not seen_source:
                    seen_source = True
                    out.append("SOURCE")
                elif w == "ON" and nxt in ("CONFLICT", "DUPLICATE"):
                    out.append("UPSERT")
                elif w == "RETURNING":
                    out.append("RETURNING")
            elif kind == "update":
                if w in ("SET", "FROM", "WHERE", "RETURNING", "LIMIT"):
                    out.append(w)
                elif w == "UPDATE" and (not out or out == ["WITH"]):
                    out.append("UPDATE")
                elif w == "JOIN":
                    out.append("JOIN")
                elif w == "ORDER" and nxt == "BY":
                    out.append("ORDER")
            elif kind == "delete":
                if w in ("WHERE", "RETURNING", "LIMIT"):
                    out.append(w)
                elif w == "DELETE":
                    out.append("DELETE")
                elif w == "ORDER" and nxt == "BY":
                    out.append("ORDER")
        i += 1
    return out


# ---- window definitions: OVER ( [PARTITION BY ..] [ORDER BY ..] [frame] ) -----------------------------------------
class WindowError(Exception):
    pass


def window_groups(tl):
    """token lists of every inline window definition OVER ( ... ), at any depth"""
    out, n = [], len(tl)
    for i in range(n - 1):
        if tl[i] == ("W", "OVER") and tl[i + 1] == ("C", "("):
            d, j = 0, i + 1
            while j < n:
                if tl[j] == ("C", "("):
                    d += 1
                elif tl[j] == ("C", ")"):
                    d -= 1
                    if d == 0:
                        break
                j += 1
            if j >= n:
                raise WindowError("unbalanced parentheses after OVER")
            out.append(tl[i + 2:j])
    return out


def read_bound(ts, i):
    if i + 1 < len(ts) and ts[i] == ("W", "UNBOUNDED") and ts[i + 1] in (("W", "PRECEDING"), ("W", "FOLLOWING")):
        return ("up" if ts[i + 1][1] == "PRECEDING" else "uf"), i + 2
    if i + 1 < len(ts) and ts[i] == ("W", "CURRENT") and ts[i + 1] == ("W", "ROW"):
        return "cur", i + 2
    if i + 1 < len(ts) and ts[i][0] != "W" and ts[i + 1] in (("W", "PRECEDING"), ("W", "FOLLOWING")):
        return ("pre" if ts[i + 1][1] == "PRECEDING" else "fol"), i + 2
    raise WindowError("not a frame bound at %r" % (ts[i:i + 3],))


def read_window_spec(ts):
    """(has_partition, has_order, frame signature or None) of one window definition; WindowError if malformed"""
    d, marks = 0, []
    for i, t in enumerate(ts):
        if t == ("C", "("):
            d += 1
        elif t == ("C", ")"):
            d -= 1
        elif d == 0 and t[0] == "W":
            nxt = ts[i + 1] if i + 1 < len(ts) else None
            if t[1] == "PARTITION":
                if nxt != ("W", "BY"):
                    raise WindowError("PARTITION without BY")
                marks.append(("P", i))
            elif t[1] == "ORDER" and nxt == ("W", "BY"):
                marks.append(("O", i))
            elif t[1] in ("ROWS", "RANGE", "GROUPS"):
                marks.append(("F", i))
    kinds = [k for k, _ in marks]
    if kinds != [k for k in "POF" if k in kinds] or len(set(kinds)) != len(kinds):
        raise WindowError("parts of the window definition out of order or repeated: %s" % kinds)
    if ts and (not marks or marks[0][1] != 0):
        raise WindowError("window definition starts with %r" % (ts[:3],))
    ends = [i for _, i in marks[1:]] + [len(ts)]
    for (k, i), e in zip(marks, ends):
        if k in "PO" and e - i <= 2:
            raise WindowError("empty %s list" % ("PARTITION BY" if k == "P" else "ORDER BY"))
    frame = None
    if "F" in kinds:
        i = dict(marks)["F"]
        unit = ts[i][1].lower()
        j = i + 1
        if j < len(ts) and ts[j] == ("W", "BETWEEN"):
            b1, j = read_bound(ts, j + 1)
            if j >= len(ts) or ts[j] != ("W", "AND"):
                raise WindowError("BETWEEN bound without AND")
            b2, j = read_bound(ts, j + 1)
            frame = (unit, b1, b2)
        else:
            b1, j = read_bound(ts, j)
            frame = (unit, b1, None)
        if j != len(ts):
            raise WindowError("tokens after the frame: %r" % (ts[j:j + 3],))
    return ("P" in kinds, "O" in kinds, frame)


def given_windows(node, out):
    """(has_partition, has_order, frame signature) of every inline window the program gives (exprwin / exprwinas)"""
    if not isinstance(node, list) or not node:
        return
    if node[0] in ("exprwin", "exprwinas") and len(node) > 2 and isinstance(node[2], list) and node[2][:1] == ["window"]:
        w = node[2][1:]
        fr = [x for x in w if isinstance(x, list) and x[0] == "frame"]
        sig = None
        if fr:
            bk = lambda x: x if isinstance(x, str) else x[0]
            f = fr[-1]
            sig = (f[1], bk(f[2]), bk(f[3]) if len(f) > 3 else None)
        out.append((any(isinstance(x, list) and x[0] == "partition" for x in w),
                    any(isinstance(x, list) and x[0] == "orderby" for x in w), sig))
    for c in node[1:]:
        given_windows(c, out)


# ---- upsert action: DO NOTHING / DO UPDATE SET a = .., b = ..  |  ON DUPLICATE KEY UPDATE a = .., b = .. ---------
def given_upsert(prog):
    """what the on-conflict calls of an INSERT program ask for, read as a history: ('nothing', pk columns) or
    ('update', number of assignments); None if no action call was made or there is no on-conflict clause"""
    oc = [c for c in prog[1:] if isinstance(c, list) and c and c[0] == "onconflict"]
    if not oc:
        return None
    act = None
    for op in oc[-1][1:]:
        if not isinstance(op, list):
            continue
        if op[0] == "nothing":
            act = ("nothing", 0)
        elif op[0] == "nothingon":
            act = ("nothing", len(op) - 1)
        elif op[0] in ("updcol", "updexpr"):
            act = ("update", act[1] + 1) if act and act[0] == "update" else ("update", 1)
    return act


def rendered_upsert(b, tl):
    """('nothing',) | ('ignore',) | ('update', n assignments) | None, read from the top-level upsert clause"""
    d, i, n = 0, 0, len(tl)
    start = None
    while i < n:
        t = tl[i]
        if t == ("C", "("):
            d += 1
        elif t == ("C", ")"):
            d -= 1
        elif d == 0 and t == ("W", "ON") and i + 1 < n and tl[i + 1] in (("W", "CONFLICT"), ("W", "DUPLICATE")):
            start = i
        i += 1
    if start is None:
        return None
    i, d = start + 2, 0
    kind = None
    while i < n:
        t = tl[i]
        if t == ("C", "("):
            d += 1
        elif t == ("C", ")"):
            d -= 1
        elif d == 0 and t[0] == "W":
            if b == "pg" and t[1] == "DO":
                if i + 1 < n and tl[i + 1] == ("W", "NOTHING"):
                    return ("nothing",)
                if i + 2 < n and tl[i + 1] == ("W", "UPDATE") and tl[i + 2] == ("W", "SET"):
                    kind, i = "update", i + 3
                    break
                raise WindowError("DO is followed by %r" % (tl[i + 1:i + 3],))
            if b == "my" and t[1] == "IGNORE":
                return ("ignore",)
            if b == "my" and t[1] == "UPDATE":
                kind, i = "update", i + 1
                break
            if t[1] == "RETURNING":
                return None
        i += 1
    if kind is None:
        return None
    cnt, d = 1, 0
    while i < n:
        t = tl[i]
        if t == ("C", "("):
            d += 1
        elif t == ("C", ")"):
            d -= 1
        elif d == 0 and t == ("C", ","):
            cnt += 1
        elif d == 0 and t in (("W", "WHERE"), ("W", "RETURNING")):
            break
        i += 1
    return ("update", cnt)


FOREIGN = {
    "my": [r"\$\d", r"\bRETURNING\b", r"\bILIKE\b", r"DISTINCT ON", r"NULLS (FIRST|LAST)", r"TABLESAMPLE", r"ON CONFLICT", r"\bSEARCH\b.*\bFIRST BY\b", r"MATERIALIZED"],
    "pg": [r"ON DUPLICATE KEY", r"\bROW\(", r"(USE|IGNORE|FORCE) INDEX", r"IS NULL (ASC|DESC),", r"DISTINCTROW"],
}


WINSTAT = [0]
UPSTAT = [0]


def gen_cases(ctx):
    rng = ctx.rng
    lines = []
    n = 2500 if ctx.quick else 160000
    kinds = {}
    for _ in range(n):
        b = rng.choice(B)
        # no raw custom SQL / custom keywords, so that depth-0 keywords are the renderer's own
        g = gen_sql.Gen(rng, b, max_depth=rng.choice([1, 2, 2]), no_marks=True, parseable=True, allow_panic=False)
        q = g.query(rng.choice([1, 2]), allow_with=False)
        if rng.random() < 0.08:
            # recursive WITH with SEARCH / CYCLE options attached to a select
            opts = rng.choice(["(search breadth (col 61) 6f)", "(cycle (col 61) 6b 70)",
                               "(search depth (col 61) 6f) (cycle (col 61) 6b 70)"])
            q = "(select (col (col 61)) (from (t 77)) (with (recursive) (cte 77 (cols 61) (select (col (col 61)) (from (t 74)))) %s))" % opts
        kinds[q[1:7]] = kinds.get(q[1:7], 0) + 1
        lines.append("stmt %s %s" % (b, q))
    ctx.cov["distribution"] = {"kinds": kinds}
    return lines


def strip_literals(tokline):
    toks = sqlparse.toks_of(tokline)
    return [t for t in toks]


# ---- set operations: operator and parenthesised operand, recursively --------------------------------------------
SETOP_WORD = {"all": "UNION ALL", "distinct": "UNION", "intersect": "INTERSECT", "except": "EXCEPT"}
SETSTAT = [0]


def given_setops(prog):
    """the set operations a SELECT program gives, in call order: [(operator, operations of the operand), ..]"""
    out = []
    for c in prog[1:]:
        if isinstance(c, list) and c and c[0] == "union" and len(c) == 3 and isinstance(c[2], list):
            out.append((SETOP_WORD[c[1]], given_setops(c[2])))
    return out


def rendered_setops(tl):
    """the set operations read at parenthesis depth 0 of a SELECT: every operator is followed by its operand in
    parentheses (MySQL / Postgres form); the operand is read the same way.  WindowError if an operand is not
    parenthesised."""
    out, depth, i, n = [], 0, 0, len(tl)
    while i < n:
        t = tl[i]
        if t == ("C", "("):
            depth += 1
        elif t == ("C", ")"):
            depth -= 1
        elif depth == 0 and t[0] == "W" and t[1] in ("UNION", "INTERSECT", "EXCEPT"):
            op = t[1]
            i += 1
            if i < n and tl[i][0] == "W" and tl[i][1] in ("ALL", "DISTINCT"):
                if tl[i][1] == "ALL":
                    op += " ALL"
                i += 1
            if i >= n or tl[i] != ("C", "("):
                raise WindowError("the operand of %s is not parenthesised" % op)
            d, j = 0, i
            while j < n:
                if tl[j] == ("C", "("):
                    d += 1
                elif tl[j] == ("C", ")"):
                    d -= 1
                    if d == 0:
                        break
                j += 1
            if j >= n:
                raise WindowError("unbalanced parentheses after %s" % op)
            out.append((op, rendered_setops(tl[i + 1:j])))
            i = j + 1
            continue
        i += 1
    return out


ORDSTAT = [0]


def rendered_order_by(b, tl):
    """(number of sort keys, number of NULLS-ordering forms) of the ORDER BY at parenthesis depth 0"""
    depth, start = 0, None
    for i, t in enumerate(tl):
        if t == ("C", "("):
            depth += 1
        elif t == ("C", ")"):
            depth -= 1
        elif depth == 0 and t == ("W", "ORDER") and i + 1 < len(tl) and tl[i + 1] == ("W", "BY"):
            start = i + 2
    if start is None:
        raise WindowError("no ORDER BY at the top level")
    depth, keys, marks, j = 0, 1, 0, start
    while j < len(tl):
        t = tl[j]
        if t == ("C", "("):
            depth += 1
        elif t == ("C", ")"):
            depth -= 1
        elif depth == 0:
            if t[0] == "W" and t[1] in ("LIMIT", "OFFSET", "FOR", "WINDOW", "RETURNING", "LOCK"):
                break
            if t == ("C", ","):
                keys += 1
            elif b == "pg" and t == ("W", "NULLS") and j + 1 < len(tl) and tl[j + 1] in (("W", "FIRST"), ("W", "LAST")):
                marks += 1
            elif b == "my" and t == ("W", "IS") and j + 2 < len(tl) and tl[j + 1] == ("W", "NULL") and \
                    tl[j + 2] in (("W", "ASC"), ("W", "DESC")):
                marks += 1
        j += 1
    return keys, marks


def batch_oracle(ctx, lines, impl):
    verdicts = [None] * len(lines)
    pairs = []
    for c, o in zip(lines, impl):
        f = qcommon.split_out(o)
        if f is not None:
            pairs.append((c.split(" ")[1], f[1]))
    toks = qcommon.etok_many(ctx, pairs)
    checked = 0
    for i, (c, o) in enumerate(zip(lines, impl)):
        f = qcommon.split_out(o)
        if f is None:
            continue
        b = c.split(" ")[1]
        prog = sexp.parse(c.split(" ", 2)[2])
        want = expected_kinds(b, prog)
        if want is None:
            continue
        try:
            tl = sqlparse.toks_of(toks[(b, f[1])])
        except sqlparse.ParseError:
            continue
        got = [k for k in rendered_kinds(prog[0], tl) if k != "SOURCE"]   # row acceptance is C10's subject
        checked += 1
        if got != want:
            # with a named window the statement is in the known class (F6: clause position and missing parentheses)
            nowin = lambda l: [k for k in l if k != "WINDOW"]
            tag = "WINDOW " if "WINDOW" in want else ""
            if tag and nowin(want) != nowin(got)[:len(nowin(want))]:
                tag = ""   # something besides the window clause is wrong
            verdicts[i] = tag + "clauses rendered at top level are %s, the grammar of %s requires %s for the clauses given" % (got, b, want)
            continue
        # recursive-query options inside the WITH clause (Postgres only): each given option exactly once
        withs = [c for c in prog[1:] if isinstance(c, list) and c and c[0] == "with"]
        if prog[0] == "withq":
            withs = [prog[1]]
        nested = []
        if prog[0] == "insert":
            # the SELECT source of an INSERT is written unparenthesised: its own WITH clause is at depth 0 too -
            # if that select_from() call was accepted (column count) and is still the source
            for c in prog[1:]:
                if isinstance(c, list) and c and c[0] == "selectfrom" and len(c) > 1 and isinstance(c[1], list):
                    nested.append([x for x in c[1][1:] if isinstance(x, list) and x and x[0] == "with"])

        def given_opt(w, opt):
            rec = any(isinstance(x, list) and x[0] == "recursive" for x in w[1:])
            return 1 if (rec and b == "pg" and any(isinstance(x, list) and x[0] == opt.lower() for x in w[1:])) else 0
        for w in (withs + [x for n_ in nested for x in n_])[:1]:
            for opt in ("SEARCH", "CYCLE"):
                given = sum(given_opt(x, opt) for x in withs)
                allowed = {given} | {given + sum(given_opt(x, opt) for x in n_) for n_ in nested}
                d0, cnt = 0, 0
                for t in tl:
                    if t == ("C", "("):
                        d0 += 1
                    elif t == ("C", ")"):
                        d0 -= 1
                    elif d0 == 0 and t == ("W", opt):
                        cnt += 1
                if cnt not in allowed and verdicts[i] is None:
                    verdicts[i] = "%s given %s time(s) in the WITH clause(s) but rendered %d time(s) on %s" % (
                        opt, "/".join(str(x) for x in sorted(allowed)), cnt, b)
        # inline window definitions: each one read from the text is well-formed and is one the program gave
        # (presence of PARTITION BY / ORDER BY, frame unit and bounds); a window may be absent (clause not
        # rendered on this dialect), never different
        if verdicts[i] is None:
            try:
                got_w = [read_window_spec(g) for g in window_groups(tl)]
                giv_w = []
                given_windows(prog, giv_w)
                for w in got_w:
                    # membership, not multiplicity: MySQL's NULLS FIRST/LAST emulation writes a sort key twice
                    if w not in giv_w:
                        verdicts[i] = "a window definition reads as %r, the program gives %r" % (w, giv_w)
                        break
                WINSTAT[0] += len(got_w)
            except WindowError as e:
                verdicts[i] = "a window definition is not well-formed on %s: %s" % (b, e)
        # set operations: each operator with its own operand, nested as the program nests them (an operand's own
        # set operations stay inside the operand's parentheses: a EXCEPT (b UNION (c)) is not a EXCEPT (b) UNION (c))
        if verdicts[i] is None and prog[0] == "select":
            want_s = given_setops(prog)
            try:
                got_s = rendered_setops(tl)
            except WindowError as e:
                got_s = ("unreadable", str(e))
            if got_s != want_s:
                verdicts[i] = "the set operations read from the statement are %r, the program gives %r" % (got_s, want_s)
            SETSTAT[0] += len(want_s)
        # the statement's ORDER BY: one sort key per item given, in the dialect's NULLS-ordering form (Postgres:
        # key .. NULLS FIRST|LAST; MySQL: an extra leading key `key IS NULL ASC|DESC`)
        if verdicts[i] is None and prog[0] in ("select", "update", "delete"):
            items = [c for c in prog[1:] if isinstance(c, list) and c and c[0] == "orderby"]
            if items:
                nn = sum(1 for c in items if not isinstance(c[-1], list) and c[-1] in ("first", "last"))
                try:
                    keys, marks = rendered_order_by(b, tl)
                    want_keys = len(items) + (nn if b == "my" else 0)
                    # (on MySQL a sort key may itself end in IS NULL: the forms read are a lower bound there)
                    if keys != want_keys or (marks != nn if b == "pg" else marks < nn):
                        verdicts[i] = ("ORDER BY carries %d sort key(s) and %d NULLS-ordering form(s) on %s; %d item(s) were given, "
                                       "%d with a NULLS ordering (%d key(s) expected)" % (keys, marks, b, len(items), nn, want_keys))
                except WindowError as e:
                    verdicts[i] = "ORDER BY is not readable on %s: %s" % (b, e)
                ORDSTAT[0] += 1
        # the upsert action: what the history of on-conflict calls asks for is what is written
        if verdicts[i] is None and prog[0] == "insert":
            want_u = given_upsert(prog)
            if want_u is not None:
                try:
                    got_u = rendered_upsert(b, tl)
                except WindowError as e:
                    got_u = ("unreadable", str(e))
                if b == "pg":
                    exp_u = ("nothing",) if want_u[0] == "nothing" else ("update", want_u[1])
                elif want_u[0] == "nothing":
                    exp_u = ("ignore",) if want_u[1] == 0 else ("update", want_u[1])
                else:
                    exp_u = ("update", want_u[1])
                if got_u != exp_u:
                    verdicts[i] = "the on-conflict calls ask for %r, the statement carries %r" % (exp_u, got_u)
                elif exp_u == ("ignore",):
                    verdicts[i] = "MYSQLIGNORE ON DUPLICATE KEY IGNORE is not a MySQL statement (do_nothing() without key columns)"
                UPSTAT[0] += 1
        # the predicates of the upsert clause (Postgres): the conflict-target predicate and the action predicate are
        # each written once when given (target_where / action_where calls), whatever the action
        if verdicts[i] is None and prog[0] == "insert" and b == "pg":
            oc = [c for c in prog[1:] if isinstance(c, list) and c and c[0] == "onconflict"]
            if oc:
                ops = [o[0] for o in oc[-1][1:] if isinstance(o, list) and o]
                want_p = ("twhere" in ops) + ("awhere" in ops)
                d0, seen, cnt = 0, False, 0
                for j, t in enumerate(tl):
                    if t == ("C", "("):
                        d0 += 1
                    elif t == ("C", ")"):
                        d0 -= 1
                    elif d0 == 0 and t == ("W", "ON") and j + 1 < len(tl) and tl[j + 1] == ("W", "CONFLICT"):
                        seen = True
                    elif d0 == 0 and seen and t == ("W", "RETURNING"):
                        break
                    elif d0 == 0 and seen and t == ("W", "WHERE"):
                        cnt += 1
                if seen and cnt != want_p:
                    verdicts[i] = "the upsert clause carries %d predicate(s); the on-conflict calls give %d (target_where / action_where)" % (cnt, want_p)
        # dialect-specific constructs only in their own dialect (keywords outside literals/identifiers)
        text = " ".join(t[1] for t in tl if t[0] in "WOC")
        text = text.replace("( ", "(")
        for pat in FOREIGN[b]:
            if re.search(pat, text):
                verdicts[i] = "a construct of another dialect appears in the %s rendering: /%s/" % (b, pat)
                break
    ctx.cov["oracle_statements_checked"] = checked
    ctx.cov["oracle_window_definitions_read"] = WINSTAT[0]
    ctx.cov["oracle_upsert_actions_read"] = UPSTAT[0]
    ctx.cov["oracle_set_operations_read"] = SETSTAT[0]
    ctx.cov["oracle_order_by_clauses_read"] = ORDSTAT[0]
    return verdicts


def classify(case, out, failure, kfs):
    for prefix, cls in (("WINDOW ", "named-window-clause"), ("MYSQLIGNORE ", "mysql-on-duplicate-key-ignore")):
        if failure.startswith(prefix):
            for k in kfs:
                if k.get("matcher", {}).get("class") == cls:
                    return k
    return None


def run(ctx):
    return vlib.standard_flow(
        ctx, "fa", gen_cases, batch_oracle=batch_oracle, classify=classify, describe=qcommon.describe,
        regen=lambda c: regen.regen_exprtables(c),
        nontrivial=lambda c: c.count("(") > 10,
        rule="random builder programs (SELECT/INSERT/UPDATE/DELETE, nesting to depth 2, every clause kind incl. index "
             "hints, locks, windows, upsert, RETURNING, DISTINCT ON, NULLS ordering) x {MySQL, Postgres}; correspondence "
             "byte-exact in both modes; oracle on the implementation's parameterised SQL: the clause heads at parenthesis "
             "depth 0 (engine tokenizer) equal the clauses given by the program in the dialect's grammar order, each once; "
             "no construct of the other dialect occurs outside literals")


def replay(path):
    obj = json.load(open(path))
    ctx = vlib.Ctx("C08", "quick")
    ctx.build("fa", model=True)
    case = obj["case"]
    i, m = ctx.run_both([case], "replay")
    print("case:", case)
    print("impl :", qcommon.readable(i[0]))
    print("model:", qcommon.readable(m[0]))
    v = batch_oracle(ctx, [case], i)[0]
    print("oracle:", v or "ok", "| correspondence:", "ok" if i[0] == m[0] else "DIFFERS")
    return 1 if (v or i[0] != m[0]) else 0
