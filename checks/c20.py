"""C20 — with feature thread-safe, every builder and statement type is Send + Sync.

Model   : coq/Generated/TypeGraph.v (with thread-safe) and TypeGraphNoTS.v (without), rewritten on every
          run from the rustdoc JSON of /repo by tools/typegraph.py; coq/Spec/AutoTrait.v is the rule set
          and the checker; Properties/C20.v pins the theorems.
Tie     : rustc itself. harness_c20 is compiled against /repo once per feature configuration and prints,
          for every public type, whether rustc's trait solver finds it Send / Sync. The checker's verdict
          (evaluated by coqc on the same generated graph) must equal rustc's for every type and both
          traits in every configuration.
Oracle  : in every configuration that enables thread-safe, rustc's table must be all-true.
"""
import json
import os
from concurrent.futures import ThreadPoolExecutor

import vlib
import typegraph as tg

SHORT = {"with-json": "json", "with-chrono": "chrono", "with-uuid": "uuid", "with-rust_decimal": "rustdec",
         "with-bigdecimal": "bigdec", "with-time": "time", "with-ipnetwork": "ipnet", "with-mac_address": "mac",
         "postgres-array": "pgarray", "postgres-vector": "pgvector", "postgres-interval": "pginterval",
         "hashable-value": "hash", "all-types": "alltypes", "thread-safe": "ts"}
LANES = 4


def configs(ctx):
    """[(key, features, doc target key, harness target key)]"""
    out = [(tg.CFG_TS[0], tg.CFG_TS[1], None, None), (tg.CFG_NOTS[0], tg.CFG_NOTS[1], None, None),
           # one backend only (default-features = false): what is thread-safe must not depend on which backends
           # are compiled in
           ("ts-sqlite-only", ["no-default", "thread-safe", "backend-sqlite"], "lane0", "lane0")]
    if ctx.quick:
        return out
    extra = [("ts-none", ["thread-safe"]), ("nots-none", []),
             ("ts-mysql-only", ["no-default", "thread-safe", "backend-mysql"]),
             ("ts-postgres-only", ["no-default", "thread-safe", "backend-postgres", "derive"]),
             ("ts-no-backend", ["no-default", "thread-safe"])]
    for f in tg.VALUE_FEATURES:
        extra.append(("ts-" + SHORT[f], ["thread-safe", f]))
    extra.append(("ts-alltypes", ["thread-safe", "all-types"]))
    extra.append(("ts-hash", ["thread-safe", "hashable-value"]))
    # a few random subsets of the optional value-type features (seeded)
    for k in range(4):
        sub = sorted(ctx.rng.sample(tg.VALUE_FEATURES, ctx.rng.randint(2, 6)))
        hv = ["hashable-value"] if ctx.rng.random() < 0.5 else []
        extra.append(("ts-rand%d" % k, ["thread-safe"] + hv + sub))
    for i, (key, feats) in enumerate(extra):
        lane = "lane%d" % (i % LANES)
        out.append((key, feats, lane, lane))
    return out


def wants_demo(feats):
    """the cross-thread demonstration renders with SqliteQueryBuilder: it needs that backend compiled in"""
    return "thread-safe" in feats and ("no-default" not in feats or "backend-sqlite" in feats)


def eval_config(cfg, workdir):
    """rustdoc -> graph -> harness (rustc's table) for one configuration"""
    key, feats, doc_t, har_t = cfg
    g = tg.load_graph(key, feats, target_key=doc_t)
    table, demo = tg.harness_build(g, target_key=har_t, demo=wants_demo(feats), lock_ready=True)
    return g, table, demo


def model_verdicts(g, workdir):
    mod = tg.GENERATED[g.key][:-2] if g.key in tg.GENERATED else None
    return tg.coq_verdicts(g, workdir, generated_module=mod)


def violation_obj(g, i, trait, rustc, model, path):
    n = g.nodes[i]
    return {"kind": "oracle-failure", "type": n["name"], "rust_type": n["rust"], "node": i, "trait": trait,
            "defined_at": n["span"], "config": {"key": g.key, "features": g.feats},
            "rustc_verdict": {"Send": rustc[0], "Sync": rustc[1]},
            "model_verdict": {"Send": model[0], "Sync": model[1]} if model else None,
            "offending_field_path": path or ["(the model finds no offending field: correspondence is broken too)"],
            "verdict": "%s is not %s although feature thread-safe is enabled" % (n["name"], trait)}


def run(ctx):
    cov = ctx.cov
    cfgs = configs(ctx)
    results, errors = {}, []
    try:
        tg.prepare_lock()
    except Exception as e:  # noqa
        errors.append(("lock", str(e)))
    # main configurations in parallel; the thorough matrix in lanes (each lane = one pair of cargo target dirs)
    lanes = {}
    for c in cfgs:
        lanes.setdefault(c[3] or c[0], []).append(c)

    def run_lane(lst):
        out = []
        for c in lst:
            try:
                out.append((c, eval_config(c, ctx.work), None))
            except (vlib.BuildError, tg.Unsupported) as e:
                out.append((c, None, e))
        return out

    ctx.log("rustdoc JSON + harness_c20 builds for %d feature configurations" % len(cfgs))
    with ThreadPoolExecutor(max_workers=min(len(lanes), 2 + LANES)) as ex:
        for lane_out in ex.map(run_lane, list(lanes.values())):
            for c, r, e in lane_out:
                if e is None:
                    results[c[0]] = r
                else:
                    errors.append((c, e))
    ctx.log("graphs: " + ", ".join("%s=%d nodes" % (k, len(r[0].nodes)) for k, r in results.items()))

    # the two committed graphs, then the theorems
    mains = {k: results[k][0] for k in (tg.CFG_TS[0], tg.CFG_NOTS[0]) if k in results}
    if len(mains) == 2:
        tg.regen_generated(mains)
    proof_ok = ctx.coq()
    chk = None
    if proof_ok and not ctx.quick:
        # independent re-check of the compiled theorems and their axiom report (DESIGN.md §7.1)
        chk_pool = ThreadPoolExecutor(max_workers=1)
        chk = chk_pool.submit(vlib.sh, "coqchk -o -silent -Q . SQV SQV.Properties.C20", vlib.COQ, 1500)
    vlib.sh("make -j%d Spec/AutoTrait.vo Generated/TypeGraph.vo Generated/TypeGraphNoTS.vo" % vlib.NCPU,
            cwd=vlib.COQ, timeout=900)

    # the model's verdicts, evaluated by coqc
    verdicts = {}

    def mv(key):
        try:
            return key, model_verdicts(results[key][0], ctx.work), None
        except vlib.BuildError as e:
            return key, None, e

    with ThreadPoolExecutor(max_workers=8) as ex:
        for key, v, e in ex.map(mv, list(results)):
            if e is None:
                verdicts[key] = v
            else:
                errors.append((key, e))

    failures, disagreements = [], []
    ext, notes, dist = set(), [], {}
    nontrivial = 0
    for key, (g, table, demo) in results.items():
        ext |= g.ext_leaves
        notes += ["%s: %s" % (key, n) for n in g.notes]
        ts = "thread-safe" in g.feats
        v = verdicts.get(key)
        scope = g.scope()
        if sorted(table) != scope:
            errors.append((key, "harness printed %d rows for %d public types" % (len(table), len(scope))))
            continue
        if ts and wants_demo(g.feats) and not (demo and demo.endswith("| true")):
            errors.append((key, "cross-thread demonstration did not run: %r" % demo))
        special = tg.reaches_special(g)
        d = {"features": g.feats, "types": len(g.nodes), "public_nameable": len(scope),
             "private_only_in_graph": len(g.nodes) - len(scope),
             "rustc_not_send": sum(1 for i in scope if not table[i][0]),
             "rustc_not_sync": sum(1 for i in scope if not table[i][1])}
        dist[key] = d
        if v is None:
            continue
        if len(v) != len(g.nodes):
            errors.append((key, "coq printed %d verdicts for %d nodes" % (len(v), len(g.nodes))))
            continue
        d["model_not_send"] = sum(1 for i in scope if not v[i][0])
        d["model_not_sync"] = sum(1 for i in scope if not v[i][1])
        for i in scope:
            for t, tname in ((0, "Send"), (1, "Sync")):
                cov["evaluations"] += 1
                cov["traces_validated_against_impl"] += 1
                if i in special:
                    nontrivial += 1
                if table[i][t] != v[i][t]:
                    disagreements.append((key, i, tname, table[i][t], v[i][t]))
                if ts and not table[i][t]:
                    path = tg.why_not(g, v, i, tname)
                    failures.append((len(path or []) or 99, key, i, tname, path))
    cov["distinct_nontrivial"] = nontrivial
    cov["disagreements"] = len(disagreements)
    cov["oracle_failures"] = len(failures)
    cov["exhaustive"] = True
    cov["rustdoc_format_version"] = sorted(set(str(r[0].format_version) for r in results.values()))
    cov["toolchains"] = {"rustdoc_json": vlib.sh("cargo +nightly --version")[1].strip(),
                         "harness": vlib.sh("rustc --version")[1].strip()}
    cov["distribution"] = dist
    cov["external_leaves_assumed_send_sync"] = sorted(ext)
    cov["rule"] = ("every public struct/enum of sea_query that another crate can name (generic ones instantiated with a "
                   "Send+Sync dummy), x {Send, Sync} x feature configurations; each verdict is rustc's (harness_c20) "
                   "compared with the Coq checker's on the graph generated from rustdoc JSON; non-trivial = the type's "
                   "field graph reaches an Rc/Arc/reference/dyn/external leaf")
    ctx.notes += notes
    ctx.assumptions += [
        "rustc's trait solver is the implementation under test (its Send/Sync verdicts are the observed behaviour)",
        "the auto-trait rule set of coq/Spec/AutoTrait.v (Rc, Arc, Box/Vec/Option/tuple, Cell, references, dyn bounds)",
        "rustdoc JSON (nightly, --document-private-items) lists every field of every type; tools/typegraph.py",
        "external crate types are leaves assumed Send + Sync: " + ", ".join(sorted(ext)),
        "user types implementing Iden are outside the graph (dyn Iden carries the Send + Sync supertraits)",
    ]
    for key, (g, table, demo) in list(results.items())[:2]:
        v = verdicts.get(key) or []
        for nm in ("SelectStatement", "SeaRc<dyn Iden>", "Value"):
            for i, n in enumerate(g.nodes):
                if n["name"] == nm and i in table:
                    cov["samples"].append({"config": key, "type": nm, "rustc": list(table[i]),
                                           "model": list(v[i]) if i < len(v) else None})
        if demo:
            cov["samples"].append({"config": key, "cross_thread_demo": demo})

    with open(os.path.join(ctx.work, "failures.json"), "w") as f:
        json.dump({"oracle_failures": [(k, results[k][0].nodes[i]["name"], t, p) for _, k, i, t, p in failures[:2000]],
                   "disagreements": [(k, results[k][0].nodes[i]["name"], t, r, m) for k, i, t, r, m in disagreements[:2000]],
                   "errors": [(str(c), str(e)[-2000:]) for c, e in errors]}, f, indent=1)

    if chk is not None:
        try:
            rc, out = chk.result()
        except Exception as e:  # noqa
            rc, out = 1, str(e)
        ok = rc == 0 and "* Axioms: <none>" in out
        cov["coqchk"] = {"cmd": "cd coq && coqchk -o -silent -Q . SQV SQV.Properties.C20", "ok": ok,
                         "summary": out[out.find("CONTEXT SUMMARY"):][:600] if "CONTEXT SUMMARY" in out else out[-600:]}
        ctx.log("coqchk:", "ok, no axioms" if ok else "FAILED")
        if not ok:
            proof_ok = False
            ctx.proof["error"] = "coqchk: " + out[-1500:]
    # verdict -------------------------------------------------------------------------------------
    failures.sort(key=lambda x: (x[0], x[1], x[2], x[3]))
    # report the root cause (shortest path) and a statement type that it breaks
    chosen = failures[:2] + [f for f in failures[2:] if results[f[1]][0].nodes[f[2]]["item"].endswith("Statement")][:1]
    for _, key, i, tname, path in (chosen + failures[2:])[:3]:
        g, table, _ = results[key]
        mvd = verdicts[key][i] if verdicts.get(key) else None
        ctx.violation(violation_obj(g, i, tname, table[i], mvd, path))
    if failures:
        ctx.log("%d (type, trait, config) verdicts violate the property; e.g. %s" % (
            len(failures), " -> ".join(failures[0][4] or ["?"])))
    if not failures:
        if errors:
            c, e = errors[0]
            ctx.log("build / translation failure:", str(c), str(e)[-1500:])
            kind = "model-cannot-express" if isinstance(e, tg.Unsupported) else "build-failure"
            ctx.violation({"kind": kind, "config": str(c), "detail": str(e)[-3000:],
                           "theorem_or_correspondence": "type graph translation / harness_c20 build against /repo"},
                          no_input=True)
        elif disagreements:
            key, i, tname, r, m = disagreements[0]
            g = results[key][0]
            ctx.log("correspondence broken on %d verdicts; first: %s %s %s rustc=%s model=%s" % (
                len(disagreements), key, g.nodes[i]["name"], tname, r, m))
            ctx.violation({"kind": "correspondence-broken", "theorem_or_correspondence":
                           "rustc's auto-trait verdicts vs the checker of Spec/AutoTrait.v on the generated graph",
                           "config": {"key": key, "features": g.feats}, "type": g.nodes[i]["name"],
                           "rust_type": g.nodes[i]["rust"], "node": i, "trait": tname,
                           "rustc": r, "model": m, "n_disagreements": len(disagreements),
                           "note": "rustc's table satisfies the property; the model no longer describes the code"},
                          no_input=True)
        elif not proof_ok:
            ctx.violation({"kind": "proof-broken", "theorem_or_correspondence": "coq/Properties/C20.v",
                           "detail": ctx.proof.get("error") or ctx.proof["forbidden"]}, no_input=True)
    return ctx.finish()


def replay(path):
    obj = json.load(open(path))
    ctx = vlib.Ctx("C20", "quick")
    if "node" not in obj or not isinstance(obj.get("config"), dict):
        print("replay of a failure without a failing type (%s): re-running the quick check" % obj.get("kind"))
        print(json.dumps(obj, indent=1)[:3000])
        return run(ctx)
    key, feats = obj["config"]["key"], obj["config"]["features"]
    tg.prepare_lock()
    lane = None if key in tg.GENERATED else "replay"
    g = tg.load_graph(key, feats, target_key=lane)
    table, demo = tg.harness_build(g, target_key=lane, demo=False, lock_ready=True)
    vlib.coq_makefile()
    vlib.sh("make -j%d Spec/AutoTrait.vo" % vlib.NCPU, cwd=vlib.COQ, timeout=900)
    v = tg.coq_verdicts(g, ctx.work, generated_module=None)
    idx = [i for i, n in enumerate(g.nodes) if n["name"] == obj["type"]]
    if not idx or idx[0] not in table:
        print("type %s is no longer a public type of sea_query" % obj["type"])
        return 1
    i = idx[0]
    t = 0 if obj["trait"] == "Send" else 1
    print("type     :", g.nodes[i]["name"], "=", g.nodes[i]["rust"], "defined at", g.nodes[i]["span"])
    print("features :", " ".join(feats) or "(default)")
    print("rustc    : Send=%s Sync=%s" % table[i])
    print("model    : Send=%s Sync=%s" % v[i])
    p = tg.why_not(g, v, i, obj["trait"])
    if p:
        print("offending field path:")
        for s in p:
            print("   ", s)
    bad = "thread-safe" in feats and not table[i][t]
    print("oracle   :", ("%s is not %s under thread-safe" % (g.nodes[i]["name"], obj["trait"])) if bad else "ok")
    return 1 if bad else 0
