"""C03 — inlined text and binary literals decode to exactly the supplied value."""
import vlib
from vlib import hexs, unhexs
import gens

ALPHA = ["'", '"', "\\", "\0", "\b", "\t", "\n", "\r", "\x1a", "a", "z", "Z", "0", "%", "_", "é", "\U0001F600"]
VALUE_POS = ["valstr", "val", "const", "field", "default"]
MY_STR_POS = ["tcomment", "ccomment"]
PG_STR_POS = ["typeadd", "typeaddbefore", "typerenval"]
B = ["my", "pg", "sl"]


def positions_for(b, kind):
    ps = list(VALUE_POS)
    if kind == "c":
        ps.append("likeesc")
    if kind == "s" and b == "my":
        ps += MY_STR_POS
    if kind == "s" and b == "pg":
        ps += PG_STR_POS
    return ps


def gen_cases(ctx):
    rng = ctx.rng
    lines = []
    maxlen = 2 if ctx.quick else 3
    strings = list(gens.shortlex(ALPHA, maxlen))
    n_rand = 1500 if ctx.quick else 40000
    strings += [gens.rand_string(rng, 14) for _ in range(n_rand)]
    for s in strings:
        for b in B:
            ps = positions_for(b, "s")
            # every position for short strings, one random position for the others
            use = ps if len(s) <= 1 else [rng.choice(ps)]
            for p in use:
                lines.append("lit %s %s s %s" % (b, p, hexs(s)))
    # multi-label positions
    for _ in range(300 if ctx.quick else 6000):
        labels = [("".join(rng.choice(ALPHA) for _ in range(rng.randrange(1, 4)))) for _ in range(rng.randrange(1, 4))]
        payload = ".".join(hexs(l) for l in labels)
        lines.append("lit my enum s %s" % payload)
        lines.append("lit pg typecreate s %s" % payload)
    # chars
    chars = list(ALPHA) + [chr(c) for c in range(0, 256)] + [chr(0x100), chr(0x142), chr(0x7FF), chr(0x800), chr(0xFFFD),
                                                           chr(0x10000), chr(0x10FFFF)]
    chars += [gens.rand_unicode_char(rng) for _ in range(200 if ctx.quick else 3000)]
    for c in chars:
        for b in B:
            for p in positions_for(b, "c"):
                lines.append("lit %s %s c %s" % (b, p, hexs(c)))
    # bytes
    bl = [bytes([x]) for x in range(256)] + [b"", b"\x00\xff", b"'\\x", b"\x27\x27"]
    bl += [bytes(rng.randrange(256) for _ in range(rng.randrange(0, 20))) for _ in range(300 if ctx.quick else 5000)]
    for y in bl:
        for b in B:
            p = rng.choice(VALUE_POS) if len(y) != 1 else "val"
            lines.append("lit %s %s y %s" % (b, p, y.hex() if y else "-"))
    ctx.cov["distribution"] = {"strings": len(strings), "chars": len(chars), "bytes": len(bl),
                               "exhaustive_alphabet": [hex(ord(c)) for c in ALPHA], "exhaustive_maxlen": maxlen}
    return lines


def has_nul(case):
    _, b, p, k, payload = case.split(" ")
    if k == "y":
        return False
    return any(h != "-" and b"\x00" in vlib.unhex(h) for h in payload.split("."))


def batch_oracle(ctx, lines, impl):
    """decode the implementation's own literal with the extracted engine lexer"""
    dl, idx = [], []
    verdicts = [None] * len(lines)
    for i, (c, o) in enumerate(zip(lines, impl)):
        _, b, p, k, payload = c.split(" ")
        if b in ("pg", "sl") and has_nul(c):
            continue  # the engine has no representation for NUL: outside the property
        if o == "PANIC" or " " in o or o.startswith("CRASH"):
            verdicts[i] = "implementation panicked on a value the property covers"
            continue
        dl.append("declit %s %s %s %s" % (b, p, k, o))
        idx.append(i)
    outs = ctx.run_model(dl, "oracle")
    for i, o in zip(idx, outs):
        _, b, p, k, payload = lines[i].split(" ")
        f = o.split(" ")
        if len(f) != 3:
            verdicts[i] = "engine lexer does not accept the text at the literal position as one literal (%s)" % o
        elif f[0] != payload:
            verdicts[i] = "literal decodes to %s, supplied value is %s" % (f[0], payload)
        elif f[1] != f[2]:
            verdicts[i] = "text after the literal is %r, expected %r" % (unhexs(f[1]), unhexs(f[2]))
    ctx.cov["oracle_decodes"] = len(dl)
    return verdicts


def describe(case):
    _, b, p, k, payload = case.split(" ")
    vals = [vlib.unhex(h) if k == "y" else unhexs(h) for h in payload.split(".")]
    return "backend=%s position=%s kind=%s value=%r" % (b, p, {"s": "string", "c": "char", "y": "bytes"}[k], vals)


def run(ctx):
    return vlib.standard_flow(
        ctx, "base", gen_cases, batch_oracle=batch_oracle, describe=describe,
        nontrivial=lambda c: any(x in c.split(" ")[4] for x in ("27", "5c", "22", "00", "0a", "1a")),
        rule="strings: all over the escape-relevant alphabet up to the stated length + random Unicode, at every inlining "
             "position (value_to_string, Expr::val, Constant, ORDER BY FIELD, DEFAULT, LIKE ESCAPE, MySQL COMMENT/ENUM, "
             "Postgres CREATE/ALTER TYPE labels); chars: all of U+0000..U+00FF + samples of every UTF-8 length; bytes: "
             "every single byte + random strings; non-trivial = contains a quote, backslash, NUL, newline or U+001A")


def replay(path):
    import json
    obj = json.load(open(path))
    ctx = vlib.Ctx("C03", "quick")
    ctx.build("base", model=True)
    case = obj["case"]
    i, m = ctx.run_both([case], "replay")
    print("case:", describe(case))
    print("impl :", i[0], repr(unhexs(i[0])) if " " not in i[0] and i[0] != "PANIC" else "")
    print("model:", m[0])
    v = batch_oracle(ctx, [case], i)[0]
    print("oracle:", v or "ok")
    return 1 if v else 0
