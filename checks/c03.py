"""C03 — inlined text and binary literals decode to exactly the supplied value."""
import vlib
from vlib import hexs, unhexs
import gens
import richvalues

ALPHA = ["'", '"', "\\", "\0", "\b", "\t", "\n", "\r", "\x1a", "a", "z", "Z", "0", "%", "_", "é", "\U0001F600"]
VALUE_POS = ["valstr", "val", "const", "field", "default"]
MY_STR_POS = ["tcomment", "ccomment"]
PG_STR_POS = ["typeadd", "typeaddbefore", "typerenval"]
B = ["my", "pg", "sl"]


def positions_for(b, kind):
    ps = list(VALUE_POS)
    if kind == "c":
        ps.append("likeesc")
    if kind == "s" and b == "my":
        ps += MY_STR_POS
    if kind == "s" and b == "pg":
        ps += PG_STR_POS
    return ps


def gen_cases(ctx):
    rng = ctx.rng
    lines = []
    maxlen = 2 if ctx.quick else 3
    strings = list(gens.shortlex(ALPHA, maxlen))
    n_rand = 1500 if ctx.quick else 40000
    strings += [gens.rand_string(rng, 14) for _ in range(n_rand)]
    # long texts, with a character that needs escaping at or next to typical length limits (round 14: comments clipped
    # after escaping)
    longs = []
    for L in (255, 256, 1023, 1024, 1025, 2047, 2048, 2049, 4100):
        for c in ("'", "\\", "\u00e9", "a"):
            longs.append("a" * (L - 1) + c)
            longs.append("a" * (L - 2) + c + "b")
    strings += longs if not ctx.quick else rng.sample(longs, 24)
    for s in strings:
        for b in B:
            ps = positions_for(b, "s")
            # every position for short strings, one random position for the others
            use = ps if (len(s) <= 1 or len(s) > 200) else [rng.choice(ps)]
            for p in use:
                lines.append("lit %s %s s %s" % (b, p, hexs(s)))
    # multi-label positions
    for _ in range(300 if ctx.quick else 6000):
        labels = [("".join(rng.choice(ALPHA) for _ in range(rng.randrange(1, 4)))) for _ in range(rng.randrange(1, 4))]
        payload = ".".join(hexs(l) for l in labels)
        lines.append("lit my enum s %s" % payload)
        lines.append("lit pg typecreate s %s" % payload)
    # chars
    chars = list(ALPHA) + [chr(c) for c in range(0, 256)] + [chr(0x100), chr(0x142), chr(0x7FF), chr(0x800), chr(0xFFFD),
                                                           chr(0x10000), chr(0x10FFFF)]
    chars += [gens.rand_unicode_char(rng) for _ in range(200 if ctx.quick else 3000)]
    for c in chars:
        for b in B:
            for p in positions_for(b, "c"):
                lines.append("lit %s %s c %s" % (b, p, hexs(c)))
    # bytes
    bl = [bytes([x]) for x in range(256)] + [b"", b"\x00\xff", b"'\\x", b"\x27\x27"]
    bl += [bytes(rng.randrange(256) for _ in range(rng.randrange(0, 20))) for _ in range(300 if ctx.quick else 5000)]
    for y in bl:
        for b in B:
            p = rng.choice(VALUE_POS) if len(y) != 1 else "val"
            lines.append("lit %s %s y %s" % (b, p, y.hex() if y else "-"))
    rich = gen_value_cases(ctx)
    lines += rich
    ctx.cov["distribution"] = {"strings": len(strings), "chars": len(chars), "bytes": len(bl),
                               "exhaustive_alphabet": [hex(ord(c)) for c in ALPHA], "exhaustive_maxlen": maxlen,
                               "json_and_array_cases": len(rich), "json_and_array_values": richvalues.distribution(["v:" + l.split(" ")[4] for l in rich])["rich_by_kind"]}
    return lines


def gen_value_cases(ctx):
    """the Json arm and text / char / bytes elements of arrays (value_to_string_common), at every position that
    takes a Value.  Case: `lit <b> <pos> v <hex of value term>:<hex of model encoding>`; the encoding (harness op
    venc, computed without sea-query) carries serde_json's text / the elements, i.e. what the literal must decode to."""
    rng = ctx.rng
    q = ctx.quick
    # JSON strings of arbitrary content: serde_json escapes the double quote, backslash and control characters and
    # writes everything else raw; the literal writer must then quote that text
    js = list(gens.shortlex(ALPHA, 1 if q else 2)) + [gens.rand_string(rng, 10) for _ in range(150 if q else 4000)]
    terms = ["Json:s%s" % hexs(x) for x in js] + ["Json:%d" % j for j in range(richvalues.JSON_POOL)]
    alpha = [c for c in ALPHA if c != "\0"]          # arrays: no NUL (no engine representation on Postgres / SQLite)
    for _ in range(150 if q else 4000):
        k = rng.randrange(3)
        n = rng.randrange(1, 5)
        if k == 0:
            items = ["String:%s" % hexs(rng.choice(["".join(rng.choice(alpha) for _ in range(rng.randrange(0, 4))),
                                                   gens.rand_string(rng, 8).replace("\0", "")])) for _ in range(n)]
            terms.append("Array:String:[%s]" % ",".join(items))
        elif k == 1:
            items = ["Char:%x" % ord(rng.choice(alpha + [gens.rand_unicode_char(rng).replace("\0", "a")])) for _ in range(n)]
            terms.append("Array:Char:[%s]" % ",".join(items))
        else:
            items = ["Bytes:%s" % (bytes(rng.randrange(256) for _ in range(rng.randrange(0, 6))).hex() or "-") for _ in range(n)]
            terms.append("Array:Bytes:[%s]" % ",".join(items))
    seen = set()
    terms = [t for t in terms if not (t in seen or seen.add(t))]
    atoms = richvalues.encode_terms(ctx, terms)
    lines = []
    for k, a in enumerate(atoms):
        payload = a[2:]
        for b in B:
            for p in (VALUE_POS if k % 10 == 0 else [rng.choice(VALUE_POS)]):
                lines.append("lit %s %s v %s" % (b, p, payload))
    return lines


def expected(case):
    """(kind for the declit op, payloads the literal(s) must decode to) of a case line"""
    _, b, p, k, payload = case.split(" ")
    if k != "v":
        return k, payload.split(".")
    e = richvalues.parse_enc(unhexs(payload.split(":")[1]))
    if e[0] == "o" and e[1] == "Json":
        return "s", [e[3]]
    if e[0] == "arr" and e[1] in ("String", "Char", "Bytes") and all(x[0] in "scy" for x in e[2:]):
        return ("ay" if e[1] == "Bytes" else "as"), [x[1] for x in e[2:]]
    raise ValueError("C03 has no decode rule for the value %r" % (e,))


def has_nul(case):
    k, payloads = expected(case)
    if k in ("y", "ay"):
        return False
    return any(h != "-" and b"\x00" in vlib.unhex(h) for h in payloads)


def batch_oracle(ctx, lines, impl):
    """decode the implementation's own literal with the extracted engine lexer"""
    dl, idx = [], []
    verdicts = [None] * len(lines)
    for i, (c, o) in enumerate(zip(lines, impl)):
        _, b, p, k, payload = c.split(" ")
        if b in ("pg", "sl") and has_nul(c):
            continue  # the engine has no representation for NUL: outside the property
        if o == "PANIC" or " " in o or o.startswith("CRASH"):
            verdicts[i] = "implementation panicked on a value the property covers"
            continue
        dl.append("declit %s %s %s %s" % (b, p, expected(c)[0], o))
        idx.append(i)
    outs = ctx.run_model(dl, "oracle")
    for i, o in zip(idx, outs):
        _, b, p, k, payload = lines[i].split(" ")
        payload = ".".join(expected(lines[i])[1])
        f = o.split(" ")
        if len(f) != 3:
            verdicts[i] = "engine lexer does not accept the text at the literal position as one literal (%s)" % o
        elif f[0] != payload:
            verdicts[i] = "literal decodes to %s, supplied value is %s" % (f[0], payload)
        elif f[1] != f[2]:
            verdicts[i] = "text after the literal is %r, expected %r" % (unhexs(f[1]), unhexs(f[2]))
    ctx.cov["oracle_decodes"] = len(dl)
    return verdicts


def describe(case):
    _, b, p, k, payload = case.split(" ")
    if k == "v":
        dk, hs = expected(case)
        vals = [vlib.unhex(h) if dk == "ay" else unhexs(h) for h in hs]
        return "backend=%s position=%s value term=%s must decode to %s %r" % (
            b, p, unhexs(payload.split(":")[0]), {"s": "the JSON text", "as": "the elements", "ay": "the elements"}[dk], vals)
    vals = [vlib.unhex(h) if k == "y" else unhexs(h) for h in payload.split(".")]
    return "backend=%s position=%s kind=%s value=%r" % (b, p, {"s": "string", "c": "char", "y": "bytes"}[k], vals)


def run(ctx):
    return vlib.standard_flow(
        ctx, "fa", gen_cases, batch_oracle=batch_oracle, describe=describe,
        nontrivial=lambda c: any(x in h for h in expected(c)[1] for x in ("27", "5c", "22", "00", "0a", "1a")),
        rule="strings: all over the escape-relevant alphabet up to the stated length + random Unicode, at every inlining "
             "position (value_to_string, Expr::val, Constant, ORDER BY FIELD, DEFAULT, LIKE ESCAPE, MySQL COMMENT/ENUM, "
             "Postgres CREATE/ALTER TYPE labels); chars: all of U+0000..U+00FF + samples of every UTF-8 length; bytes: "
             "every single byte + random strings; Json values (JSON strings of every content over the alphabet + random, a pool "
             "of documents) and arrays of strings / chars / byte strings at every position that takes a Value: the "
             "literal(s) must decode to serde_json's text / the elements; non-trivial = contains a quote, backslash, NUL, newline or U+001A")


def replay(path):
    import json
    obj = json.load(open(path))
    ctx = vlib.Ctx("C03", "quick")
    ctx.build("fa", model=True)
    case = obj["case"]
    i, m = ctx.run_both([case], "replay")
    print("case:", describe(case))
    print("impl :", i[0], repr(unhexs(i[0])) if " " not in i[0] and i[0] != "PANIC" else "")
    print("model:", m[0])
    v = batch_oracle(ctx, [case], i)[0]
    print("oracle:", v or "ok")
    return 1 if v else 0
